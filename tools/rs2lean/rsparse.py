"""A small Rust tokenizer + item/expression parser, sufficient for the regular parts of
trippy that /verif translates to Lean.  It fails closed: anything it does not understand
raises Unsupported, which callers record as an unmet obligation."""
import re

class Unsupported(Exception):
    pass

TOKEN_RE = re.compile(r'''
    (?P<ws>\s+)
  | (?P<lcomment>//[^\n]*)
  | (?P<bcomment>/\*.*?\*/)
  | (?P<str>b?"(?:\\.|[^"\\])*")
  | (?P<char>b?'(?:\\.|[^'\\])')
  | (?P<lifetime>'[A-Za-z_][A-Za-z0-9_]*)
  | (?P<num>0x[0-9a-fA-F_]+(?:_?[iu](?:8|16|32|64|128|size))?|[0-9][0-9_]*(?:\.[0-9]+)?(?:_?(?:[iu](?:8|16|32|64|128|size)|f32|f64))?)
  | (?P<ident>[A-Za-z_][A-Za-z0-9_]*!?)
  | (?P<punct>::|->|=>|==|!=|<=|>=|&&|\|\||<<=|>>=|<<|>>|\+=|-=|\*=|/=|\|=|&=|\^=|\.\.=|\.\.|[{}()\[\];,.:<>=+\-*/&|^!~@#?%$])
''', re.S | re.X)

def tokenize(src):
    toks = []
    pos = 0
    while pos < len(src):
        m = TOKEN_RE.match(src, pos)
        if not m:
            raise Unsupported(f'cannot tokenize at {src[pos:pos+30]!r}')
        pos = m.end()
        k = m.lastgroup
        if k in ('ws', 'lcomment', 'bcomment'):
            continue
        toks.append((k, m.group(k)))
    return toks

def normalised_tokens(src):
    """token stream with comments/whitespace removed – used for anchor hashes"""
    return ' '.join(t for _, t in tokenize(src))

class Cursor:
    def __init__(self, toks):
        self.t = toks
        self.i = 0
    def peek(self, k=0):
        return self.t[self.i + k][1] if self.i + k < len(self.t) else None
    def kind(self, k=0):
        return self.t[self.i + k][0] if self.i + k < len(self.t) else None
    def next(self):
        v = self.t[self.i][1]
        self.i += 1
        return v
    def eat(self, s):
        if self.peek() == s:
            self.i += 1
            return True
        return False
    def expect(self, s):
        if self.peek() != s:
            raise Unsupported(f'expected {s!r} got {self.peek()!r} at token {self.i}')
        self.i += 1
    def eof(self):
        return self.i >= len(self.t)

OPEN = {'{': '}', '(': ')', '[': ']'}

def skip_balanced(c):
    """cursor at an opening bracket: skip to after its matching close; returns the inner tokens"""
    op = c.next()
    cl = OPEN[op]
    depth = 1
    start = c.i
    while depth:
        t = c.next()
        if t == op:
            depth += 1
        elif t == cl:
            depth -= 1
    return c.t[start:c.i - 1]

def skip_attrs(c):
    """skip #[...] / #![...]; returns list of attribute token strings"""
    attrs = []
    while c.peek() == '#':
        c.next()
        c.eat('!')
        inner = skip_balanced(c)
        attrs.append(' '.join(t for _, t in inner))
    return attrs

def skip_generics(c):
    if c.peek() == '<':
        depth = 0
        while True:
            t = c.next()
            if t == '<':
                depth += 1
            elif t == '>':
                depth -= 1
                if depth == 0:
                    return
            elif t == '>>':
                depth -= 2
                if depth <= 0:
                    return

def parse_items(c, path=()):
    """Parse a sequence of items until '}' or EOF. Returns list of dict items:
       const / mod / impl / fn / enum / struct (others skipped)."""
    items = []
    while not c.eof() and c.peek() != '}':
        attrs = skip_attrs(c)
        is_test = any(a.replace(' ', '') == 'cfg(test)' for a in attrs)
        # visibility
        is_pub = c.peek() == 'pub'
        if is_pub:
            c.next()
            if c.peek() == '(':
                skip_balanced(c)
        t = c.peek()
        if t == 'use' or t == 'type' or t == 'extern':
            while c.next() != ';':
                pass
        elif t == 'const' and c.peek(1) != 'fn':
            c.next()
            name = c.next()
            c.expect(':')
            ty = []
            while c.peek() != '=':
                ty.append(c.next())
            c.expect('=')
            ex = []
            depth = 0
            while not (c.peek() == ';' and depth == 0):
                v = c.next()
                if v in OPEN: depth += 1
                if v in OPEN.values(): depth -= 1
                ex.append(v)
            c.expect(';')
            items.append(dict(kind='const', name=name, ty=' '.join(ty), expr=ex, path=path, attrs=attrs))
        elif t == 'static':
            while c.next() != ';':
                pass
        elif t == 'mod':
            c.next()
            name = c.next()
            if c.eat(';'):
                continue
            c.expect('{')
            if is_test:
                # skip the whole test module
                c.i -= 1
                skip_balanced(c)
                continue
            sub = parse_items(c, path + (name,))
            c.expect('}')
            items.append(dict(kind='mod', name=name, items=sub, path=path, attrs=attrs))
        elif t in ('struct', 'enum', 'union', 'trait'):
            c.next()
            name = c.next()
            skip_generics(c)
            body = None
            # where clauses etc.
            while c.peek() not in ('{', '(', ';'):
                c.next()
            if c.peek() == ';':
                c.next()
            elif c.peek() == '(':
                body = ('tuple', skip_balanced(c))
                while c.peek() != ';':
                    c.next()
                c.next()
            else:
                body = ('brace', skip_balanced(c))
            items.append(dict(kind=t, name=name, body=body, path=path, attrs=attrs))
        elif t == 'impl':
            c.next()
            skip_generics(c)
            hdr = []
            while c.peek() != '{':
                hdr.append(c.next())
            c.expect('{')
            if is_test:
                c.i -= 1
                skip_balanced(c)
                continue
            sub = parse_items(c, path)
            c.expect('}')
            items.append(dict(kind='impl', header=hdr, items=sub, path=path, attrs=attrs))
        elif t in ('fn', 'const', 'unsafe', 'async'):
            quals = []
            while c.peek() != 'fn':
                quals.append(c.next())
            c.next()
            name = c.next()
            skip_generics(c)
            params = skip_balanced(c)
            ret = []
            while c.peek() not in ('{', ';'):
                ret.append(c.next())
            if c.peek() == ';':
                c.next()
                body = None
            else:
                body = skip_balanced(c)
            if ret and ret[0] == '->':
                ret = ret[1:]
            # strip where clause
            if 'where' in ret:
                ret = ret[:ret.index('where')]
            items.append(dict(kind='fn', name=name, params=params, ret=ret, body=body, path=path, is_pub=is_pub,
                              attrs=attrs, quals=quals, is_test=is_test))
        elif t == 'macro_rules!' or (c.kind() == 'ident' and t.endswith('!')):
            c.next()
            if c.kind() == 'ident':
                c.next()
            skip_balanced(c)
            c.eat(';')
        elif t == 'type':
            while c.next() != ';':
                pass
        else:
            raise Unsupported(f'unknown item start {t!r} at {c.i} path={path}')
    return items

def parse_file(path):
    src = open(path).read()
    c = Cursor(tokenize(src))
    return parse_items(c)

# ---------------------------------------------------------------- expressions
# AST: ('num', int, suffix) ('path', [segs]) ('call', fn_expr, [args]) ('method', recv, name, [args], turbofish)
#      ('field', recv, name) ('index', recv, idx) ('bin', op, l, r) ('un', op, e) ('cast', e, ty)
#      ('array', [elems]) ('repeat', elem, len) ('tuple', [..]) ('ref', e) ('deref', e)
#      ('range', lo, hi, inclusive) ('if', cond, then_block, else_block) ('block', stmts, tail)
#      ('match', scrut, arms) ('closure', ...) ('struct', path, fields) ('macro', name, toks) ('return', e)

BINOPS = [
    ['||'], ['&&'], ['==', '!=', '<', '>', '<=', '>='], ['|'], ['^'], ['&'], ['<<', '>>'],
    ['+', '-'], ['*', '/', '%'],
]

class ExprParser:
    def __init__(self, toks):
        self.c = Cursor(list(toks))

    def parse_block_body(self):
        """statements; returns ('block', stmts, tail)"""
        c = self.c
        stmts = []
        tail = None
        while not c.eof() and c.peek() != '}':
            if c.peek() == ';':
                c.next(); continue
            skip_attrs(c)
            if c.peek() == 'let':
                c.next()
                pat = self.parse_pattern()
                ty = None
                if c.eat(':'):
                    ty = self.parse_type()
                init = None
                if c.eat('='):
                    init = self.parse_expr()
                c.expect(';')
                stmts.append(('let', pat, ty, init))
                continue
            if c.peek() == 'use':
                while c.next() != ';':
                    pass
                continue
            e = self.parse_expr(stmt=True)
            if c.peek() in ('=', '+=', '-=', '|=', '&=', '*=', '<<=', '>>=', '^='):
                op = c.next()
                rhs = self.parse_expr()
                c.expect(';')
                stmts.append(('assign', op, e, rhs))
                continue
            if c.eat(';'):
                stmts.append(('expr', e))
            elif c.eof() or c.peek() == '}':
                tail = e
            elif e[0] in ('if', 'match', 'block', 'while', 'for', 'loop'):
                stmts.append(('expr', e))
            else:
                raise Unsupported(f'unexpected token after expression: {c.peek()!r}')
        return ('block', stmts, tail)

    def parse_pattern(self):
        c = self.c
        toks = []
        depth = 0
        while True:
            t = c.peek()
            if depth == 0 and t in (':', '=', ';', 'in') :
                break
            if depth == 0 and t in ('=>', 'if'):
                break
            if t in OPEN: depth += 1
            if t in OPEN.values():
                if depth == 0: break
                depth -= 1
            if depth == 0 and t == ',' :
                break
            if depth == 0 and t == '|' and False:
                break
            toks.append(c.next())
        return ('pat', toks)

    def parse_type(self):
        c = self.c
        toks = []
        depth = 0
        while True:
            t = c.peek()
            if t is None: break
            if depth == 0 and t in ('=', ';', ',', ')', '{', '}', ']', '=>') : break
            if depth == 0 and t in ('>', '>>', '>='): break
            if t in ('<', '(', '['): depth += 1
            if t in ('>', ')', ']'): depth -= 1
            if t == '>>': depth -= 2
            toks.append(c.next())
        return ' '.join(toks)

    def parse_expr(self, stmt=False, nostruct=False):
        return self.parse_range(nostruct)

    def parse_range(self, nostruct):
        c = self.c
        if c.peek() in ('..', '..='):
            op = c.next()
            hi = None
            if c.peek() not in (']', ')', ';', ',', '}', None):
                hi = self.parse_bin(0, nostruct)
            return ('range', None, hi, op == '..=')
        lo = self.parse_bin(0, nostruct)
        if c.peek() in ('..', '..='):
            op = c.next()
            hi = None
            if c.peek() not in (']', ')', ';', ',', '}', '{', None):
                hi = self.parse_bin(0, nostruct)
            return ('range', lo, hi, op == '..=')
        return lo

    def parse_bin(self, level, nostruct):
        if level == len(BINOPS):
            return self.parse_cast(nostruct)
        c = self.c
        l = self.parse_bin(level + 1, nostruct)
        while c.peek() in BINOPS[level]:
            # `|` closure ambiguity does not arise in operand position
            op = c.next()
            r = self.parse_bin(level + 1, nostruct)
            l = ('bin', op, l, r)
        return l

    def parse_cast(self, nostruct):
        c = self.c
        e = self.parse_unary(nostruct)
        while c.peek() == 'as':
            c.next()
            ty = []
            while c.kind() == 'ident' or c.peek() == '::':
                ty.append(c.next())
                if c.peek() == '<':
                    break
            e = ('cast', e, ''.join(ty))
        return e

    def parse_unary(self, nostruct):
        c = self.c
        t = c.peek()
        if t in ('!', '-'):
            c.next()
            return ('un', t, self.parse_unary(nostruct))
        if t == '*':
            c.next()
            return ('deref', self.parse_unary(nostruct))
        if t in ('&', '&&'):
            c.next()
            c.eat('mut')
            e = self.parse_unary(nostruct)
            if t == '&&':
                return ('ref', ('ref', e))
            return ('ref', e)
        return self.parse_postfix(nostruct)

    def parse_args(self):
        c = self.c
        c.expect('(')
        args = []
        while c.peek() != ')':
            args.append(self.parse_expr())
            if not c.eat(','):
                break
        c.expect(')')
        return args

    def parse_postfix(self, nostruct):
        c = self.c
        e = self.parse_primary(nostruct)
        while True:
            t = c.peek()
            if t == '.':
                c.next()
                name = c.next()
                if name == 'await':
                    raise Unsupported('await')
                turbofish = None
                if c.peek() == '::':
                    c.next()
                    tf = []
                    depth = 0
                    while True:
                        v = c.next()
                        if v == '<': depth += 1
                        elif v == '>': depth -= 1
                        tf.append(v)
                        if depth == 0: break
                    turbofish = ' '.join(tf[1:-1])
                if c.peek() == '(':
                    args = self.parse_args()
                    e = ('method', e, name, args, turbofish)
                else:
                    e = ('field', e, name)
            elif t == '(':
                args = self.parse_args()
                e = ('call', e, args)
            elif t == '[':
                c.next()
                idx = self.parse_expr()
                c.expect(']')
                e = ('index', e, idx)
            elif t == '?':
                c.next()
                e = ('try', e)
            else:
                return e

    def parse_primary(self, nostruct):
        c = self.c
        k, t = c.kind(), c.peek()
        if k == 'num':
            c.next()
            m = re.match(r'^(0x[0-9a-fA-F_]+|[0-9][0-9_]*)(?:_?([iu](?:8|16|32|64|128|size)|f32|f64))?$', t)
            if not m:
                raise Unsupported(f'numeric literal {t}')
            return ('num', int(m.group(1).replace('_', ''), 0), m.group(2))
        if k == 'str':
            c.next()
            return ('str', t)
        if k == 'char':
            c.next()
            return ('char', t)
        if t == '(':
            c.next()
            if c.eat(')'):
                return ('tuple', [])
            e = self.parse_expr()
            if c.eat(','):
                elems = [e]
                while c.peek() != ')':
                    elems.append(self.parse_expr())
                    if not c.eat(','):
                        break
                c.expect(')')
                return ('tuple', elems)
            c.expect(')')
            return ('paren', e)
        if t == '[':
            c.next()
            if c.eat(']'):
                return ('array', [])
            e = self.parse_expr()
            if c.eat(';'):
                n = self.parse_expr()
                c.expect(']')
                return ('repeat', e, n)
            elems = [e]
            while c.eat(','):
                if c.peek() == ']':
                    break
                elems.append(self.parse_expr())
            c.expect(']')
            return ('array', elems)
        if t == '{':
            c.next()
            b = self.parse_block_body()
            c.expect('}')
            return b
        if t == 'if':
            return self.parse_if()
        if t == 'match':
            c.next()
            scrut = self.parse_expr(nostruct=True)
            c.expect('{')
            arms = []
            while c.peek() != '}':
                skip_attrs(c)
                pat = []
                depth = 0
                while not (depth == 0 and c.peek() in ('=>', 'if')):
                    v = c.next()
                    if v in OPEN: depth += 1
                    if v in OPEN.values(): depth -= 1
                    pat.append(v)
                guard = None
                if c.eat('if'):
                    guard = self.parse_expr(nostruct=True)
                c.expect('=>')
                body = self.parse_expr()
                c.eat(',')
                arms.append((pat, guard, body))
            c.expect('}')
            return ('match', scrut, arms)
        if t == 'return':
            c.next()
            if c.peek() in (';', '}'):
                return ('return', None)
            return ('return', self.parse_expr())
        if t in ('while', 'for', 'loop'):
            c.next()
            hdr = []
            while c.peek() != '{':
                hdr.append(c.next())
            c.next()
            b = self.parse_block_body()
            c.expect('}')
            return (t, hdr, b)
        if t == '|' or t == '||' or t == 'move':
            raise Unsupported('closure')
        if k == 'ident':
            if t.endswith('!'):
                c.next()
                inner = skip_balanced(c)
                return ('macro', t, [x for _, x in inner])
            segs = [c.next()]
            while c.peek() == '::':
                c.next()
                if c.peek() == '<':
                    # turbofish in path
                    depth = 0
                    tf = []
                    while True:
                        v = c.next()
                        if v == '<': depth += 1
                        elif v == '>': depth -= 1
                        tf.append(v)
                        if depth == 0: break
                    segs.append('<' + ' '.join(tf[1:-1]) + '>')
                else:
                    segs.append(c.next())
            e = ('path', segs)
            if c.peek() == '{' and not nostruct and segs[-1][0].isupper():
                c.next()
                fields = []
                while c.peek() != '}':
                    if c.peek() == '..':
                        c.next()
                        fields.append(('..', self.parse_expr()))
                        break
                    name = c.next()
                    if c.eat(':'):
                        val = self.parse_expr()
                    else:
                        val = ('path', [name])
                    fields.append((name, val))
                    if not c.eat(','):
                        break
                c.expect('}')
                return ('struct', segs, fields)
            return e
        raise Unsupported(f'primary {t!r}')

    def parse_if(self):
        c = self.c
        c.expect('if')
        if c.peek() == 'let':
            c.next()
            pat = []
            while c.peek() != '=':
                pat.append(c.next())
            c.next()
            scrut = self.parse_expr(nostruct=True)
            cond = ('iflet', pat, scrut)
        else:
            cond = self.parse_expr(nostruct=True)
        c.expect('{')
        th = self.parse_block_body()
        c.expect('}')
        el = None
        if c.eat('else'):
            if c.peek() == 'if':
                el = ('block', [], self.parse_if())
            else:
                c.expect('{')
                el = self.parse_block_body()
                c.expect('}')
        return ('if', cond, th, el)

def parse_body(body_toks):
    p = ExprParser(body_toks)
    b = p.parse_block_body()
    if not p.c.eof():
        raise Unsupported(f'trailing tokens in body: {p.c.peek()!r}')
    return b

def parse_expr_tokens(tok_strs):
    toks = tokenize(' '.join(tok_strs))
    p = ExprParser(toks)
    e = p.parse_expr()
    if not p.c.eof():
        raise Unsupported('trailing tokens in expr')
    return e

def walk_items(items):
    for it in items:
        yield it
        if it['kind'] in ('mod', 'impl'):
            yield from walk_items(it['items'])
