#!/usr/bin/env python3
"""The way from the configuration to the tracer, as tables (`Gen/Wiring.lean`):

  * `builderSetters`: for every setter `pub fn NAME(self, PARAM: T) -> Self { Self { FIELD: <expr over PARAM>, ..self } }`
    of trippy-core's `Builder` the triple (NAME, FIELD, parameters mentioned in the expression);
  * `startTracerChain`: the calls of the builder chain in trippy-tui's `app::start_tracer`, in order:
    (setter, argument text);
  * `buildFields`: for every field of the `TracerInner` / `Tracer::new` call in `Builder::build` … (not translated: the
    stack component compares what the builder hands to the layers behaviourally).

    wiring.py <repo> <outdir>   -> <outdir>/Wiring.lean, Wiring.report.json ; exit 1 on an unreadable shape

The theorems over these tables are in Props/C16.lean (`setters_set_their_own_field`, `start_tracer_wiring`):
every setter stores its own parameter in the field of its own name, and `start_tracer` hands every option of the
configuration to the setter of the same name (the documented exceptions are listed there)."""
import sys, os, json, re
sys.path.insert(0, os.path.dirname(__file__))
from rsparse import tokenize


def toks(src):
    return [t for _, t in tokenize(src)]


def balanced(ts, i, open_, close):
    """index of the token closing the bracket opened at i"""
    depth = 0
    for k in range(i, len(ts)):
        if ts[k] == open_:
            depth += 1
        elif ts[k] == close:
            depth -= 1
            if depth == 0:
                return k
    raise ValueError('unbalanced')


def setters(ts):
    out, problems = [], []
    i = 0
    while i < len(ts) - 3:
        if ts[i] == 'pub' and ts[i + 1] == 'fn' and re.fullmatch(r'[a-z_][a-z0-9_]*', ts[i + 2]):
            name = ts[i + 2]
            j = i + 3
            # generic parameters (`<S: Into<String>>`): up to the parameter list
            while j < len(ts) and ts[j] != '(' and ts[j] not in ('{', ';'):
                j += 1
            if ts[j] != '(':
                i += 1
                continue
            k = balanced(ts, j, '(', ')')
            params = ts[j + 1:k]
            if params[:1] != ['self'] or name in ('build',):
                i = k
                continue
            # -> Self {
            if ts[k + 1:k + 4] != ['->', 'Self', '{']:
                i = k
                continue
            pnames = [params[m - 1] for m in range(1, len(params)) if params[m] == ':' and re.fullmatch(r'[a-z_][a-z0-9_]*', params[m - 1])]
            b0 = k + 3
            b1 = balanced(ts, b0, '{', '}')
            body = ts[b0 + 1:b1]
            # Self { FIELD [: expr] , .. self }
            if body[:2] != ['Self', '{'] or body[-1] != '}' or body[-3:-1] != ['..', 'self']:
                problems.append(f'Builder::{name}: body is not `Self {{ field, ..self }}`')
                i = b1
                continue
            inner = body[2:-3]
            if inner and inner[-1] == ',':
                inner = inner[:-1]
            # split top-level commas
            fields, cur, depth = [], [], 0
            for t in inner:
                if t in '([{<' and not (t == '<' and depth == 0 and False):
                    depth += t in '([{'
                if t in ')]}':
                    depth -= 1
                if t == ',' and depth == 0:
                    fields.append(cur); cur = []
                else:
                    cur.append(t)
            if cur:
                fields.append(cur)
            for f in fields:
                fname = f[0]
                expr = f[2:] if len(f) > 1 and f[1] == ':' else [fname]
                used = sorted({t for t in expr if t in pnames})
                out.append((name, fname, used))
            i = b1
        i += 1
    return out, problems


def chain(ts):
    """the builder chain of `fn start_tracer`"""
    for i in range(len(ts) - 1):
        if ts[i] == 'fn' and ts[i + 1] == 'start_tracer':
            j = i
            while ts[j] != '{':
                j += 1
            end = balanced(ts, j, '{', '}')
            body = ts[j + 1:end]
            for s in range(len(body) - 3):
                if body[s:s + 4] == ['Builder', '::', 'new', '(']:
                    k = balanced(body, s + 3, '(', ')')
                    calls = [('new', ' '.join(body[s + 4:k]))]
                    k += 1
                    while k + 2 < len(body) and body[k] == '.' and body[k + 2] == '(':
                        m = balanced(body, k + 2, '(', ')')
                        calls.append((body[k + 1], ' '.join(body[k + 3:m])))
                        k = m + 1
                        if body[k] == '?':
                            k += 1
                    return calls
    return None


def fn_body(ts, name):
    for i in range(len(ts) - 1):
        if ts[i] == 'fn' and ts[i + 1] == name:
            j = i
            while ts[j] != '{':
                j += 1
            return ts[j + 1:balanced(ts, j, '{', '}')]
    return None


def lookup_calls(body, callee):
    """argument texts of the calls `callee(...)` in textual order, `let x = e;` aliases substituted"""
    alias = {}
    for s in range(len(body) - 3):
        if body[s] == 'let' and re.fullmatch(r'[a-z_][a-z0-9_]*', body[s + 1]) and body[s + 2] == '=':
            e = s + 3
            depth = 0
            while e < len(body) and not (body[e] == ';' and depth == 0):
                depth += body[e] in '([{'
                depth -= body[e] in ')]}'
                e += 1
            alias[body[s + 1]] = body[s + 3:e]
    for _ in range(4):  # aliases of aliases
        for k in alias:
            alias[k] = [u for t in alias[k] for u in (alias[t] if t in alias and t != k else [t])]
    out = []
    for s in range(len(body) - 1):
        if body[s] == callee and body[s + 1] == '(':
            k = balanced(body, s + 1, '(', ')')
            arg = []
            for t in body[s + 2:k]:
                arg += alias.get(t, [t]) if t in alias and t != 'file' else [t]
            while arg[:1] == ['&']:
                arg = arg[1:]
            out.append(' '.join(arg))
    return out


def config_lookup(repo, problems):
    ft = toks(open(os.path.join(repo, 'crates/trippy-tui/src/config/file.rs')).read())
    for i in range(len(ft) - 2):
        if ft[i] == 'mod' and ft[i + 1] == 'tests':
            ft = ft[:i]
            break
    consts = {}
    for i in range(len(ft) - 8):
        if ft[i] == 'const' and ft[i + 2] == ':' and ft[i + 3] == '&' and ft[i + 4] == 'str' and ft[i + 5] == '=' and ft[i + 7] == ';':
            consts[ft[i + 1]] = ft[i + 6].strip('"')
    b1 = fn_body(ft, 'read_default_config_file')
    b2 = fn_body(ft, 'read_files')
    if b1 is None or b2 is None:
        problems.append('file.rs: read_default_config_file / read_files not found')
        return [], []
    dirs = lookup_calls(b1, 'read_files')
    names = []
    for a in lookup_calls(b2, 'read_file'):
        parts = [x.strip() for x in a.split(',')]
        names.append(consts.get(parts[-1], parts[-1]))
    # every lookup binds its result as `Some(file)` (an `if let` or a `match` arm) and hands it on as `Ok(Some(file))`
    # (as the value of the chain or by an early return): the first hit is what the function returns
    for nm, b, n in (('read_default_config_file', b1, len(dirs)), ('read_files', b2, len(names))):
        hits = sum(1 for s in range(len(b) - 6) if b[s:s + 7] == ['Ok', '(', 'Some', '(', 'file', ')', ')'])
        binds = sum(1 for s in range(len(b) - 4) if b[s:s + 4] == ['Some', '(', 'file', ')'] and b[s + 4] in ('=', '=>'))
        if hits != n or binds != n:
            problems.append(f'file.rs: {nm}: {n} lookups but {binds} `Some(file)` bindings / {hits} `Ok(Some(file))` results')
    return dirs, names


def lean_str(s):
    return '"' + s.replace('\\', '\\\\').replace('"', '\\"') + '"'


def main():
    repo, out = sys.argv[1], sys.argv[2]
    problems = []
    bt = toks(open(os.path.join(repo, 'crates/trippy-core/src/builder.rs')).read())
    # only the non-test part
    if 'mod' in bt:
        for i in range(len(bt) - 2):
            if bt[i] == 'mod' and bt[i + 1] == 'tests':
                bt = bt[:i]
                break
    sets, pr = setters(bt)
    problems += pr
    at = toks(open(os.path.join(repo, 'crates/trippy-tui/src/app.rs')).read())
    ch = chain(at)
    if ch is None:
        problems.append('app.rs: the builder chain of start_tracer was not found')
        ch = []
    if not sets:
        problems.append('builder.rs: no setters found')
    text = ['-- GENERATED by tools/rs2lean/wiring.py from crates/trippy-core/src/builder.rs and crates/trippy-tui/src/app.rs — do not edit',
            'namespace TV.Gen.Wiring', '',
            '/-- (setter, field it stores into, parameters the stored expression mentions) -/',
            'def builderSetters : List (String × String × List String) := [']
    text += [f'  ({lean_str(n)}, {lean_str(f)}, [{", ".join(lean_str(u) for u in us)}]),' for n, f, us in sets]
    text += [']', '', '/-- the calls of the builder chain in `app::start_tracer`, in order: (method, argument) -/',
             'def startTracerChain : List (String × String) := [']
    text += [f'  ({lean_str(m)}, {lean_str(a)}),' for m, a in ch]
    dirs, names = config_lookup(repo, problems)
    text += [']', '', '/-- the directories `read_default_config_file` looks in, in order, and the file names tried in each -/',
             'def configLookupDirs : List String := [' + ', '.join(lean_str(d) for d in dirs) + ']',
             'def configLookupNames : List String := [' + ', '.join(lean_str(n) for n in names) + ']']
    text += ['', 'end TV.Gen.Wiring', '']
    os.makedirs(out, exist_ok=True)
    p = os.path.join(out, 'Wiring.lean')
    body = '\n'.join(text)
    if not os.path.exists(p) or open(p).read() != body:
        open(p, 'w').write(body)
    json.dump(dict(setters=sets, chain=ch, problems=problems), open(os.path.join(out, 'Wiring.report.json'), 'w'), indent=1)
    print(f'wiring: {len(sets)} setter fields, {len(ch)} calls in start_tracer, {len(problems)} problems')
    for x in problems:
        print('  PROBLEM', x)
    return 1 if problems else 0


if __name__ == '__main__':
    sys.exit(main())
