#!/bin/bash
# run every claimed check (quick tier) on the current tree; prints one line per check
cd "$(dirname "$0")/.."
for id in $(jq -r '.checks[].property_id' MANIFEST.json); do
  ./check $id ${1:+--tier $1} 2>&1 | grep -E "^(VIOLATION|OK)" | cut -c1-160
done
