#!/bin/bash
# usage: tools/seedconfirm.sh <worktree> — run the seed's demo with and without its change
wt=$1
cmd=$(jq -r .demo_cmd $wt/seed_out/meta.json)
cd $wt
echo "--- with change:"; (eval "$cmd" 2>&1 | grep -E "test result|panicked at" | head -4)
git stash -q -- crates
echo "--- without change:"; (eval "$cmd" 2>&1 | grep -E "test result|panicked at" | head -4)
git stash pop -q
