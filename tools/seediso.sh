#!/bin/bash
# usage: tools/seediso.sh <seed dir with patch.diff> <check ids...>
# Runs the given checks against a scratch worktree of /repo with the seeded change applied, using a
# scratch copy of /verif — /repo and /verif themselves are not touched (so other work can go on).
# The registered checks always run against /repo itself; this helper is only for testing the checks.
set -u
d=$(readlink -f "$1"); shift
ISO=${ISO:-/tmp/iso.$$}
WT=$ISO/repo; V=$ISO/verif
mkdir -p $ISO
git -C /repo worktree add --detach $WT HEAD >/dev/null 2>&1 || { echo "worktree failed"; exit 2; }
git -C $WT apply "$d/patch.diff" || { echo "patch does not apply"; git -C /repo worktree remove --force $WT; rm -rf $ISO; exit 2; }
rsync -a --exclude .build/run --exclude .git --exclude replays /verif/ $V/
sed -i "s#/repo/crates#$WT/crates#" $V/harness/Cargo.toml
sed -i "s#/verif/.build/cargo#$V/.build/cargo#" $V/harness/.cargo/config.toml
sed -i "s#/repo/crates#$WT/crates#" $V/kani/Cargo.toml 2>/dev/null
for id in "$@"; do
  echo "== check $id with $(basename $d) (isolated)"
  (cd $V && VERIF_REPO=$WT ./check $id 2>&1 | grep -E "^(VIOLATION|OK|KNOWN)" | cut -c1-300)
  if [ -n "${KEEP_REPLAY:-}" ]; then cp -r $V/replays /tmp/iso-replays-$id 2>/dev/null; fi
done
git -C /repo worktree remove --force $WT
git -C /repo worktree prune
[ -n "${KEEP_ISO:-}" ] || rm -rf $ISO
