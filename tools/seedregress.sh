#!/bin/bash
# usage: tools/seedregress.sh [jobs] [pattern]  — every stored seeded change (seeded/C??[a-z]?/) against the check of its
# own property, each in an isolated copy (tools/seediso.sh); summary: one line per seed in /tmp/seedregress/summary.txt
cd "$(dirname "$0")/.."
J=${1:-4}; PAT=${2:-C}
out=/tmp/seedregress; rm -rf $out; mkdir -p $out
ls -d seeded/${PAT}* | grep -E "seeded/C[0-9]{2}[a-z]?(-[a-z0-9]+)?$" | xargs -P $J -I{} bash -c '
  d={}; n=$(basename $d); id=${n:0:3}
  r=$(ISO=/tmp/iso.sr.$n tools/seediso.sh $d $id 2>&1 | grep -E "^(VIOLATION|OK)|patch does not apply" | head -1 | cut -c1-160)
  echo "$n $r" >> /tmp/seedregress/summary.txt'
sort $out/summary.txt
echo "detected: $(grep -c VIOLATION $out/summary.txt) of $(wc -l < $out/summary.txt); without concrete input: $(grep -c no-failing-input-found $out/summary.txt)"
