#!/bin/bash
# usage: tools/seedtest.sh <seed dir with patch.diff> <check ids...>
# applies the seeded change to /repo, runs the given checks, and undoes the change
set -u
d=$1; shift
cd /repo || exit 2
git diff --quiet || { echo "/repo has uncommitted changes"; exit 2; }
git apply "$d/patch.diff" || { echo "patch does not apply"; exit 2; }
for id in "$@"; do
  echo "== check $id with $(basename $d)"
  (cd /verif && ./check $id 2>&1 | grep -E "^(VIOLATION|OK|KNOWN)" | cut -c1-300)
done
git -C /repo checkout -- .
echo "== reverted; refreshing evidence on the unchanged tree"
for id in "$@"; do (cd /verif && ./check $id 2>&1 | grep -E "^(VIOLATION|OK)" | cut -c1-120); done
