#!/bin/bash
# usage: tools/w3confirm.sh <ID> <suffix> <check ids...>
# Confirms a sub-agent's seeded change left applied in /tmp/${WAVE:-w3}/<ID> (demo fails with it, passes
# without it, whole suite passes with it), stores it as /verif/seeded/<ID><suffix>/ and runs the given
# checks against it in an isolated copy (tools/seediso.sh).  Log: /tmp/${WAVE:-w3}/<ID>.confirm.log
id=$1; sfx=$2; shift 2
wt=/tmp/${WAVE:-w3}/$id; out=/tmp/${WAVE:-w3}/$id-out
export CARGO_NET_OFFLINE=true
cmd=$(jq -r .demo_cmd $out/meta.json)
cd $wt || exit 2
git diff > /tmp/${WAVE:-w3}/$id.patch.check
if ! diff -q <(git diff -- crates) $out/patch.diff >/dev/null; then echo "NOTE: patch.diff differs from worktree diff (using worktree diff)"; git diff -- crates > $out/patch.diff; fi
echo "--- demo WITH change:"; (eval "$cmd" 2>&1 | grep -E "^test result|panicked at|^error" | head -6)
# (not `git stash`: the stash is shared by all worktrees of a repository)
git diff -- crates > /tmp/${WAVE:-w3}/$id.cur.diff
git apply -R /tmp/${WAVE:-w3}/$id.cur.diff
echo "--- demo WITHOUT change:"; (eval "$cmd" 2>&1 | grep -E "^test result|panicked at|^error" | head -6)
git apply /tmp/${WAVE:-w3}/$id.cur.diff
echo "--- suite WITH change:"
CARGO_TARGET_DIR=$wt/target cargo nextest run -j 6 --build-jobs 6 --workspace --no-fail-fast --offline 2>&1 | grep -E "Summary|FAIL " | head -5
d=/verif/seeded/$id$sfx
mkdir -p $d
cp $out/patch.diff $d/patch.diff
rm -rf $d/demo; cp -r $out/demo $d/demo; rm -rf $d/demo/target
cp $out/meta.json $d/meta.json
cd /verif
ISO=/tmp/iso.$id tools/seediso.sh $d "$@"
