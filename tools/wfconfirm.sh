#!/bin/bash
# usage: tools/wfconfirm.sh <wave dir> <group> <suffix> [extra check ids...]
# file-centred waves: confirms the change left applied in <wave dir>/<group> (demo fails with it, passes without it, suite
# passes with it), stores it as /verif/seeded/<property><suffix>-<group>/ (the property comes from the agent's meta.json) and
# runs that property's check (+ extras) against it in an isolated copy.  Log on stdout.
W=$1; g=$2; sfx=$3; shift 3
wt=$W/$g; out=$W/$g-out
export CARGO_NET_OFFLINE=true
pid=$(jq -r .property $out/meta.json | grep -oE "C[0-9]{2}" | head -1)
[ -n "$pid" ] || { echo "no property in meta.json"; exit 2; }
cmd=$(jq -r .demo_cmd $out/meta.json)
cd $wt || exit 2
if ! diff -q <(git diff -- crates) $out/patch.diff >/dev/null; then echo "NOTE: patch.diff differs from worktree diff (using worktree diff)"; git diff -- crates > $out/patch.diff; fi
echo "--- property $pid; files: $(git diff --stat -- crates | head -3 | tr '\n' ' ')"
echo "--- demo WITH change:"; (eval "$cmd" 2>&1 | grep -E "^test result|panicked at|^error" | head -6)
git diff -- crates > $W/$g.cur.diff
git apply -R $W/$g.cur.diff
echo "--- demo WITHOUT change:"; (eval "$cmd" 2>&1 | grep -E "^test result|panicked at|^error" | head -6)
git apply $W/$g.cur.diff
echo "--- suite WITH change:"
CARGO_TARGET_DIR=$wt/target cargo nextest run -j 6 --build-jobs 6 --workspace --no-fail-fast --offline 2>&1 | grep -E "Summary|FAIL " | head -5
d=/verif/seeded/$pid$sfx-$g
mkdir -p $d
cp $out/patch.diff $d/patch.diff
rm -rf $d/demo; cp -r $out/demo $d/demo; rm -rf $d/demo/target
cp $out/meta.json $d/meta.json
cd /verif
ISO=/tmp/iso.$g tools/seediso.sh $d $pid "$@"
